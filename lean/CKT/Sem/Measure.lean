import CKT.Sem.Instr
import Mathlib.Tactic.FinCases
/-!
# Measurements in the Pauli-expectation semantics: signed sums over fresh bits

* `meas_signed` — measuring `q` into a *fresh* classical bit `c` and summing the two outcomes with signs `(±1)^bit`
  is the linear map with transfer matrix `proj₀ ± proj₁` applied to the state before the measurement.  With `−` this is
  the "signed Kraus pair `+Π₀, −Π₁`" by which the channel model (`Model/Channel.krausMeas`, C02) represents the
  `qpd_measure` marker: the sign is applied at reconstruction time as the parity of the QPD bits (C06 `parity_sign`).
* `decode_blocks` — **T11.4 (Walsh identity)**: after the measurement blocks of a commuting group (per measured qubit an
  optional basis rotation, then the measurement into its own fresh bit), the sum over all outcomes of the classical
  distribution weighted with the parity of the masked bits is the expectation value of the member observable (letter
  of the general observable where the mask is set, identity elsewhere) in the state before the blocks.
-/
namespace CKT.Sem
open Finset CKT

variable {K : Type} [CommRing K]

theorem applyL_addM (qs : List Nat) (M N : TM K) (v : Vec K) :
    applyL qs (fun a b => M a b + N a b) v = fun P => applyL qs M v P + applyL qs N v P := by
  funext P
  simp only [applyL, add_mul]
  exact sumL_add _ _ _

theorem applyL_smulM (qs : List Nat) (c : K) (M : TM K) (v : Vec K) :
    applyL qs (fun a b => c * M a b) v = fun P => c * applyL qs M v P := by
  funext P
  simp only [applyL, mul_assoc]
  exact sumL_mul_left c _ _

theorem applyL_zero_vec (qs : List Nat) (M : TM K) : applyL qs M (fun _ => (0 : K)) = fun _ => 0 := by
  funext P
  simp only [applyL, mul_zero]
  exact sumL_zero _

/-- bit `c` has not been written: all the weight sits on register values with `c = 0` -/
def Fresh (c : Nat) (σ : St K) : Prop := ∀ k : Cl, k c = true → σ k = fun _ => 0

def sgn (e bit : Bool) : K := if e && bit then -1 else 1

/-- **signed-measurement lemma** -/
theorem meas_signed (q c : Nat) (pr : Bool → TM K) (σ : St K) (hf : Fresh c σ) (k : Cl) (e : Bool) (P : PStr) :
    (∑ bit : Bool, sgn (K := K) e bit * (Prim.meas q c pr).act σ (Function.update k c bit) P)
      = applyL [q] (fun a b => pr false a b + sgn e true * pr true a b) (σ (Function.update k c false)) P := by
  have hact : ∀ bit : Bool, (Prim.meas q c pr).act σ (Function.update k c bit) P
      = applyL [q] (pr bit) (σ (Function.update k c false)) P := by
    intro bit
    simp only [Prim.act, Function.update_self, Function.update_idem, Fintype.sum_bool]
    rw [hf (Function.update k c true) (by simp), applyL_zero_vec]
    simp
  simp only [Fintype.sum_bool, hact]
  rw [applyL_addM, applyL_smulM]
  simp [sgn, add_comm]

/-! ### standard projectors and unit rows -/

/-- transfer matrices of the projectors `Π₀` (`bit = false`) and `Π₁`; `hf` is one half -/
def stdProj (hf : K) (bit : Bool) : TM K := fun a b =>
  match a, b with
  | [x], [y] =>
    if (x = 0 ∧ y = 0) ∨ (x = 3 ∧ y = 3) then hf
    else if (x = 0 ∧ y = 3) ∨ (x = 3 ∧ y = 0) then (if bit then -hf else hf)
    else 0
  | _, _ => 0

/-- row `r` of a one-qubit transfer matrix is the unit vector at letter `l` -/
def RowUnit (M : TM K) (r l : Fin 4) : Prop := ∀ y : Fin 4, M [r] [y] = if y = l then 1 else 0

theorem applyL_rowUnit (q : Nat) (M : TM K) (r l : Fin 4) (h : RowUnit M r l) (v : Vec K) (P : PStr) (hP : P q = r) :
    applyL [q] M v P = v (Function.update P q l) := by
  simp only [applyL, List.length_cons, List.length_nil, sumL, List.map_cons, List.map_nil, updL, hP]
  rw [Finset.sum_eq_single l]
  · rw [h l]; simp
  · intro y _ hy; rw [h y]; simp [hy]
  · simp

theorem stdProj_sum_row (hf : K) (hh : 2 * hf = 1) (e : Bool) :
    RowUnit (fun a b => stdProj hf false a b + sgn e true * stdProj hf true a b) 0 (if e then 3 else 0) := by
  intro y
  have h2 : hf + hf = 1 := by rw [← two_mul]; exact hh
  cases e <;> fin_cases y <;> simp [stdProj, sgn, h2]

/-! ### measurement blocks -/

/-- what the package needs from the gate semantics to decode measurements: standard projectors, trace-preserving basis
rotations whose `Z` row is the measured letter (`h`: X, `sx`: Y) -/
structure MeasSem (G : GateSem K) where
  hf : K
  half : 2 * hf = 1
  proj_std : G.proj = stdProj hf
  h_tp : RowUnit (G.mat "h" []) 0 0
  h_z : RowUnit (G.mat "h" []) 3 1
  sx_tp : RowUnit (G.mat "sx" []) 0 0
  sx_z : RowUnit (G.mat "sx" []) 3 2

/-- one block: qubit, classical bit, letter of the general observable on that qubit (0 = I … 3 = Z), mask bit of the member -/
structure Block where
  q : Nat
  c : Nat
  l : Fin 4
  e : Bool

def rotInstrs (l : Fin 4) (q : Nat) : List Instr :=
  if l = 1 then [{ name := "h", qubits := [q] }] else if l = 2 then [{ name := "sx", qubits := [q] }] else []

def Block.instrs (b : Block) : List Instr := rotInstrs b.l b.q ++ [{ name := "measure", qubits := [b.q], clbits := [b.c] }]

def runI (G : GateSem K) (l : List Instr) (σ : St K) : St K := l.foldl (fun σ i => ap G none i σ) σ

theorem runI_append (G : GateSem K) (a b : List Instr) (σ : St K) : runI G (a ++ b) σ = runI G b (runI G a σ) := by
  simp [runI, List.foldl_append]

theorem ap_measure (G : GateSem K) (q c : Nat) (σ : St K) :
    ap G none { name := "measure", qubits := [q], clbits := [c] } σ = (Prim.meas q c G.proj).act σ := by
  simp [ap, prims, isBarrier, isReset]

theorem ap_named (G : GateSem K) (n : String) (q : Nat) (σ : St K) (h1 : n ≠ "barrier") (h2 : n ≠ "reset") (h3 : n ≠ "measure")
    (h4 : n ≠ "move") (h5 : n ≠ "qpd_2q") :
    ap G none { name := n, qubits := [q] } σ = fun k => applyL [q] (G.mat n []) (σ k) := by
  simp [ap, prims, isBarrier, isReset, isMoveLike, h1, h2, h3, h4, h5, Prim.act]

/-- the rotation of a block as a transfer matrix acting on the block's qubit -/
def rotM (G : GateSem K) (l : Fin 4) : TM K :=
  if l = 1 then G.mat "h" [] else if l = 2 then G.mat "sx" [] else fun a b => match a, b with
    | [x], [y] => if x = y then 1 else 0
    | _, _ => 0

theorem applyL_id (q : Nat) (v : Vec K) :
    applyL [q] (fun a b => match a, b with | [x], [y] => if x = y then (1 : K) else 0 | _, _ => 0) v = v := by
  funext P
  simp only [applyL, List.length_cons, List.length_nil, sumL, List.map_cons, List.map_nil, updL]
  rw [Finset.sum_eq_single (P q)]
  · simp
  · intro b _ hb; simp [Ne.symm hb]
  · simp

theorem runI_rot (G : GateSem K) (l : Fin 4) (q : Nat) (σ : St K) :
    runI G (rotInstrs l q) σ = fun k => applyL [q] (rotM G l) (σ k) := by
  unfold rotInstrs rotM
  by_cases h1 : l = 1
  · simp only [h1, if_true, runI, List.foldl_cons, List.foldl_nil]
    exact ap_named G "h" q σ (by decide) (by decide) (by decide) (by decide) (by decide)
  · by_cases h2 : l = 2
    · simp only [h1, h2, if_true, if_false, runI, List.foldl_cons, List.foldl_nil]
      exact ap_named G "sx" q σ (by decide) (by decide) (by decide) (by decide) (by decide)
    · simp only [h1, h2, if_false, runI, List.foldl_nil]
      funext k
      rw [applyL_id]

theorem rotM_rows (G : GateSem K) (ms : MeasSem G) (l : Fin 4) (hl : l ≠ 0) : RowUnit (rotM G l) 0 0 ∧ RowUnit (rotM G l) 3 l := by
  unfold rotM
  by_cases h1 : l = 1
  · simp only [h1, if_true]; exact ⟨ms.h_tp, ms.h_z⟩
  · by_cases h2 : l = 2
    · simp only [h2]; exact ⟨ms.sx_tp, ms.sx_z⟩
    · have h3 : l = 3 := by
        fin_cases l <;> simp_all
      subst h3
      simp only [h1, h2, if_false]
      constructor <;> intro y <;> fin_cases y <;> simp

theorem fresh_lift (c : Nat) (σ : St K) (hf : Fresh c σ) (g : Vec K → Vec K) (hg : g (fun _ => 0) = fun _ => 0) :
    Fresh c (fun k => g (σ k)) := by
  intro k hk
  show g (σ k) = _
  rw [hf k hk, hg]

/-- **one block**: rotate, measure into a fresh bit, sum the outcomes with the sign of the masked bit -/
theorem block_decode (G : GateSem K) (ms : MeasSem G) (b : Block) (hl : b.e = true → b.l ≠ 0) (σ : St K) (hf : Fresh b.c σ)
    (k : Cl) (P : PStr) (hP : P b.q = 0) :
    (∑ bit : Bool, sgn (K := K) b.e bit * runI G b.instrs σ (Function.update k b.c bit) P)
      = σ (Function.update k b.c false) (Function.update P b.q (if b.e then b.l else 0)) := by
  unfold Block.instrs
  rw [runI_append, runI_rot]
  simp only [runI, List.foldl_cons, List.foldl_nil, ap_measure]
  rw [meas_signed b.q b.c G.proj _ (fresh_lift b.c σ hf _ (applyL_zero_vec _ _)) k b.e P, ms.proj_std]
  rw [applyL_rowUnit b.q _ 0 _ (stdProj_sum_row ms.hf ms.half b.e) _ P hP]
  cases he : b.e with
  | false =>
    simp only [Bool.false_eq_true, if_false]
    by_cases hl0 : b.l = 0
    · -- no rotation needed for the statement: the I row of any of the three matrices is the unit vector at I
      have : RowUnit (rotM G b.l) 0 0 := by
        unfold rotM
        simp only [hl0]
        intro y; fin_cases y <;> simp
      rw [applyL_rowUnit b.q _ 0 0 this _ _ (by simp)]
      simp
    · rw [applyL_rowUnit b.q _ 0 0 (rotM_rows G ms b.l hl0).1 _ _ (by simp)]
      simp
  | true =>
    simp only [if_true]
    rw [applyL_rowUnit b.q _ 3 b.l (rotM_rows G ms b.l (hl he)).2 _ _ (by simp)]
    simp

/-! ### all blocks: the Walsh identity -/

def signedSum : List (Nat × Bool) → (Cl → K) → Cl → K
  | [], f, k => f k
  | (c, e) :: rest, f, k => ∑ bit : Bool, sgn e bit * signedSum rest f (Function.update k c bit)

def clearBits : List Block → Cl → Cl
  | [], k => k
  | b :: rest, k => Function.update (clearBits rest k) b.c false

/-- the member observable written into `P`: the general observable's letter where the mask is set -/
def memberStr : List Block → PStr → PStr
  | [], P => P
  | b :: rest, P => Function.update (memberStr rest P) b.q (if b.e then b.l else 0)

def blocksInstrs (bl : List Block) : List Instr := bl.flatMap Block.instrs

theorem signedSum_congr (l : List (Nat × Bool)) (f g : Cl → K) (h : ∀ k, f k = g k) (k : Cl) : signedSum l f k = signedSum l g k := by
  have : f = g := funext h
  rw [this]

theorem signedSum_sum (c : Nat) (e : Bool) : ∀ (l : List (Nat × Bool)) (f : Cl → K) (k : Cl), c ∉ l.map (·.1) →
    signedSum l (fun k' => ∑ bit : Bool, sgn e bit * f (Function.update k' c bit)) k
      = ∑ bit : Bool, sgn e bit * signedSum l f (Function.update k c bit)
  | [], _, _, _ => rfl
  | (c', e') :: rest, f, k, h => by
    have hc : c ≠ c' := by intro e; apply h; simp [e]
    have hr : c ∉ rest.map (·.1) := by intro hm; apply h; simp only [List.map_cons, List.mem_cons]; exact Or.inr hm
    simp only [signedSum]
    simp only [signedSum_sum c e rest f _ hr, Finset.mul_sum]
    rw [Finset.sum_comm]
    apply Finset.sum_congr rfl
    intro bit _
    apply Finset.sum_congr rfl
    intro bit' _
    rw [Function.update_comm hc]
    ring

theorem ap_block_fresh (G : GateSem K) (b : Block) (c : Nat) (hc : c ≠ b.c) (σ : St K) (hf : Fresh c σ) :
    Fresh c (runI G b.instrs σ) := by
  unfold Block.instrs
  rw [runI_append, runI_rot]
  simp only [runI, List.foldl_cons, List.foldl_nil, ap_measure]
  intro k hk
  funext P
  simp only [Prim.act]
  apply Finset.sum_eq_zero
  intro o _
  have : Function.update k b.c o c = true := by rw [Function.update_of_ne hc]; exact hk
  rw [hf _ this, applyL_zero_vec, applyL_zero_vec]

/-- **T11.4 — decoding by bit-mask parity is the expectation value of the member observable** (Walsh identity in the
Pauli-expectation semantics).  `bl`: the measurement blocks of a commuting group on pairwise distinct qubits and
pairwise distinct, still unwritten classical bits; `P`: any Pauli string that is the identity on the measured qubits
(the identity string for the plain distribution).  The sum over all outcomes of the measured bits, with the sign
`(−1)^{parity of the masked bits}`, of the weight of `P` after rotations and measurements equals the weight, before the
blocks, of `P` with the member's letters written in. -/
theorem decode_blocks (G : GateSem K) (ms : MeasSem G) : ∀ (bl : List Block) (σ : St K) (k : Cl) (P : PStr),
    (bl.map (·.q)).Nodup → (bl.map (·.c)).Nodup → (∀ b ∈ bl, b.e = true → b.l ≠ 0) → (∀ b ∈ bl, Fresh b.c σ) →
    (∀ b ∈ bl, P b.q = 0) →
    signedSum (bl.map fun b => (b.c, b.e)) (fun k' => runI G (blocksInstrs bl) σ k' P) k
      = σ (clearBits bl k) (memberStr bl P)
  | [], _, _, _, _, _, _, _, _ => rfl
  | b :: rest, σ, k, P, hq, hc, hl, hfr, hP => by
    have hq' := List.nodup_cons.1 hq
    have hc' := List.nodup_cons.1 hc
    simp only [List.map_cons, signedSum, blocksInstrs, List.flatMap_cons, runI_append]
    have hfr' : ∀ b' ∈ rest, Fresh b'.c (runI G b.instrs σ) := by
      intro b' hb'
      apply ap_block_fresh G b b'.c _ σ (hfr b' (List.mem_cons_of_mem _ hb'))
      intro e
      apply hc'.1
      simp only [List.mem_map]
      exact ⟨b', hb', e⟩
    have ih := fun k' => decode_blocks G ms rest (runI G b.instrs σ) k' P hq'.2 hc'.2
      (fun x hx => hl x (List.mem_cons_of_mem _ hx)) hfr' (fun x hx => hP x (List.mem_cons_of_mem _ hx))
    simp only [blocksInstrs] at ih
    simp only [ih]
    have hclear : ∀ bit, clearBits rest (Function.update k b.c bit) = Function.update (clearBits rest k) b.c bit := by
      intro bit
      have hnot : b.c ∉ rest.map (·.c) := hc'.1
      clear ih hfr' hq' hc' hq hc hl hfr hP
      induction rest with
      | nil => rfl
      | cons x xs ihx =>
        have hx : b.c ≠ x.c := by intro e; apply hnot; simp [e]
        have hxs : b.c ∉ xs.map (·.c) := by intro hm; apply hnot; simp only [List.map_cons, List.mem_cons]; exact Or.inr hm
        simp only [clearBits, ihx hxs]
        rw [Function.update_comm hx]
    simp only [hclear]
    have hPq : memberStr rest P b.q = 0 := by
      have hnot : b.q ∉ rest.map (·.q) := hq'.1
      have hP0 := hP b (by simp)
      clear ih hfr' hq' hc' hq hc hl hfr hP hclear
      induction rest with
      | nil => exact hP0
      | cons x xs ihx =>
        have hx : b.q ≠ x.q := by intro e; apply hnot; simp [e]
        have hxs : b.q ∉ xs.map (·.q) := by intro hm; apply hnot; simp only [List.map_cons, List.mem_cons]; exact Or.inr hm
        simp only [memberStr]
        rw [Function.update_of_ne hx]
        exact ihx hxs
    have := block_decode G ms b (hl b (by simp)) σ (hfr b (by simp)) (clearBits rest k) (memberStr rest P) hPq
    rw [this]
    rfl

end CKT.Sem
