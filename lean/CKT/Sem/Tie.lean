import CKT.Model.Gates
import CKT.Sem.Instr
import CKT.Sem.Measure
/-!
# The concrete matrices of `CKT.Sem` are the transfer matrices of the channel model

`resetM` and `swapM` (used by the Pauli-expectation semantics) coincide entry by entry with the transfer matrices that the
symbolic channel model (`Model/Channel`, `Model/Gates`: Kraus operators `|0⟩⟨0|, |0⟩⟨1|` resp. the swap unitary — the
tables that the C02 check compares numerically with Qiskit on every run) computes for `reset` and `swap`.
-/
namespace CKT.Sem
open CKT

theorem resetM_is_channel_ptm : ∀ a b : Fin 4,
    PO.rget (PO.ptm1 krausReset) a.val b.val = pc (if b = 0 ∧ (a = 0 ∨ a = 3) then 1 else 0) := by
  decide +kernel

theorem swapM_is_channel_ptm : ∀ x y x' y' : Fin 4,
    PO.rget (PO.ptm2 [(false, uSwap)]) (4 * y.val + x.val) (4 * y'.val + x'.val)
      = pc (if x' = y ∧ y' = x then 1 else 0) := by
  decide +kernel

/-- the standard projectors of `Sem/Measure` (with one half = 1/2) are the transfer matrices of `Π₀`, `Π₁` -/
theorem stdProj_is_channel_ptm : ∀ (bit : Bool) (a b : Fin 4),
    PO.rget (PO.ptm1 [(false, if bit then P1m else P0m)]) a.val b.val = pc (stdProj (K := Rat) (1/2) bit [a] [b]) := by
  decide +kernel

/-- the `qpd_measure` marker of the channel model (signed Kraus pair `+Π₀, −Π₁`) is `proj₀ − proj₁` -/
theorem marker_is_signed_projectors : ∀ (a b : Fin 4),
    PO.rget (PO.ptm1 krausMeas) a.val b.val = pc (stdProj (K := Rat) (1/2) false [a] [b] + sgn true true * stdProj (K := Rat) (1/2) true [a] [b]) := by
  decide +kernel

/-- basis rotations: `h` and `sx` are trace preserving and their `Z` row is the unit vector at `X` resp. `Y`
(measuring `Z` after the rotation measures `X` resp. `Y`) -/
theorem h_rows : ∀ y : Fin 4, PO.rget (PO.ptm1 [(false, uH)]) 0 y.val = pc (if y = 0 then 1 else 0) ∧
    PO.rget (PO.ptm1 [(false, uH)]) 3 y.val = pc (if y = 1 then 1 else 0) := by
  decide +kernel

theorem sx_rows : ∀ y : Fin 4, PO.rget (PO.ptm1 [(false, uSX)]) 0 y.val = pc (if y = 0 then 1 else 0) ∧
    PO.rget (PO.ptm1 [(false, uSX)]) 3 y.val = pc (if y = 2 then 1 else 0) := by
  decide +kernel

end CKT.Sem
