import CKT.Model.Gates
import CKT.Sem.Instr
/-!
# The concrete matrices of `CKT.Sem` are the transfer matrices of the channel model

`resetM` and `swapM` (used by the Pauli-expectation semantics) coincide entry by entry with the transfer matrices that the
symbolic channel model (`Model/Channel`, `Model/Gates`: Kraus operators `|0⟩⟨0|, |0⟩⟨1|` resp. the swap unitary — the
tables that the C02 check compares numerically with Qiskit on every run) computes for `reset` and `swap`.
-/
namespace CKT.Sem
open CKT

theorem resetM_is_channel_ptm : ∀ a b : Fin 4,
    PO.rget (PO.ptm1 krausReset) a.val b.val = pc (if b = 0 ∧ (a = 0 ∨ a = 3) then 1 else 0) := by
  decide +kernel

theorem swapM_is_channel_ptm : ∀ x y x' y' : Fin 4,
    PO.rget (PO.ptm2 [(false, uSwap)]) (4 * y.val + x.val) (4 * y'.val + x'.val)
      = pc (if x' = y ∧ y' = x then 1 else 0) := by
  decide +kernel

end CKT.Sem
