import numpy as np, random, sys
from qiskit.quantum_info import PauliList
from qiskit.primitives import SamplerResult, PrimitiveResult, SamplerPubResult, BitArray, DataBin
from qiskit.result import QuasiDistribution
from qiskit_addon_cutting import reconstruct_expectation_values
from qiskit_addon_cutting.qpd import WeightType
from qiskit_addon_cutting.utils.observable_grouping import ObservableCollection
rng=random.Random(int(sys.argv[1])); bad=0
def popc(x): return bin(x).count("1")
for t in range(int(sys.argv[2])):
    nparts=rng.randint(1,3); nobs=rng.randint(1,4)
    labels=rng.sample(["A","B",7,(1,2)],nparts)
    subobs={}
    for l in labels:
        nq=rng.choice([1,2,3,9,12])
        subobs[l]=PauliList(["".join(rng.choice("IIXYZ") for _ in range(nq)) for _ in range(nobs)])
    ncoef=rng.randint(1,4)
    coefs=[(rng.uniform(-2,2),WeightType.EXACT) for _ in range(ncoef)]
    res1={};res2={}; ref=np.zeros(nobs)
    E={}
    for l in labels:
        oc=ObservableCollection(subobs[l]); G=len(oc.groups)
        quasis=[];pubs=[]
        for i in range(ncoef):
            for k,cog in enumerate(oc.groups):
                nb=max(1,len(cog.pauli_indices)); nqpd=rng.choice([1,2,9,12])
                shots=rng.randint(1,6)
                data=[(rng.randrange(2**nb),rng.randrange(2**nqpd)) for _ in range(shots)]
                qd={}
                for o,q in data:
                    key=o|(q<<nb); qd[key]=qd.get(key,0)+1/shots
                fmt=rng.choice(["int","bin","hex"])
                if fmt=="int": quasis.append(QuasiDistribution(qd))
                elif fmt=="bin": quasis.append(QuasiDistribution({format(kk,"b").zfill(nb+nqpd):v for kk,v in qd.items()}))
                else: quasis.append(QuasiDistribution({hex(kk):v for kk,v in qd.items()}))
                oa=np.array([[ (o>>(8*(((nb+7)//8)-1-j)))&255 for j in range((nb+7)//8)] for o,q in data],dtype=np.uint8)
                qa=np.array([[ (q>>(8*(((nqpd+7)//8)-1-j)))&255 for j in range((nqpd+7)//8)] for o,q in data],dtype=np.uint8)
                pubs.append(SamplerPubResult(DataBin(observable_measurements=BitArray(oa,nb),qpd_measurements=BitArray(qa,nqpd),shape=())))
                # reference E for each member
                for n_,ob in enumerate(cog.commuting_observables):
                    mask=0
                    for bi,qi in enumerate(cog.pauli_indices):
                        if str(ob[qi])!="I": mask|=1<<bi
                    E[(l,i,ob.to_label())]=np.mean([(-1)**popc(q)*(-1)**popc(o&mask) for o,q in data])
        res1[l]=SamplerResult(quasis,[{}]*len(quasis)); res2[l]=PrimitiveResult(pubs)
    for k in range(nobs):
        for i,(c,_) in enumerate(coefs):
            ref[k]+=c*np.prod([E[(l,i,subobs[l][k].to_label())] for l in labels])
    v1=reconstruct_expectation_values(res1,coefs,subobs); v2=reconstruct_expectation_values(res2,coefs,subobs)
    if not (np.allclose(v1,ref,atol=1e-9) and np.allclose(v2,ref,atol=1e-9)):
        bad+=1; print("MISMATCH",v1,v2,ref,subobs)
print("done",bad)
