import numpy as np, random, sys
from qiskit import QuantumCircuit
from qiskit.quantum_info import random_unitary, Statevector
from qiskit.circuit.library import UnitaryGate
from qiskit_addon_cutting.utils.simulation import simulate_statevector_outcomes
from refsim import simulate, dist
rng=random.Random(int(sys.argv[1])); bad=0
# sanity of refsim vs statevector on unitary circuits
for t in range(int(sys.argv[2])):
    n=rng.randint(1,4); m=rng.randint(0,4)
    qc=QuantumCircuit(n,m)
    for _ in range(rng.randint(1,16)):
        r=rng.random()
        if r<0.3: qc.append(UnitaryGate(random_unitary(2,seed=rng.randrange(10**6))),[rng.randrange(n)])
        elif r<0.4: qc.h(rng.randrange(n))
        elif r<0.55 and n>1:
            a,b=rng.sample(range(n),2); rng.choice([qc.cx,qc.cz,qc.swap])(a,b)
        elif r<0.6 and n>1:
            a,b=rng.sample(range(n),2); qc.append(UnitaryGate(random_unitary(4,seed=rng.randrange(10**6))),[a,b])
        elif r<0.8 and m>0: qc.measure(rng.randrange(n), rng.randrange(m))
        elif r<0.95: qc.reset(rng.randrange(n))
        else: qc.barrier()
    got=simulate_statevector_outcomes(qc)
    ref=dist(simulate(qc))
    keys=set(got)|set(ref)
    if any(abs(got.get(k,0)-ref.get(k,0))>1e-9 for k in keys) or abs(sum(got.values())-1)>1e-9:
        bad+=1; print("MISMATCH", got, ref); print(qc)
print("done",bad)
