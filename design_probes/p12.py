import numpy as np, random, sys, itertools
from qiskit import QuantumCircuit
from qiskit.transpiler import PassManager
from qiskit_addon_cutting.cutting_experiments import _consolidate_resets, _remove_resets_in_zero_state, _remove_final_resets
from qiskit_addon_cutting.utils.transpiler_passes import RemoveFinalReset, ConsolidateResets
from refsim import simulate
def ptrace_keep(rho, keep, n):
    t=rho.reshape([2]*(2*n))
    # trace out qubits not in keep
    drop=[q for q in range(n) if q not in keep]
    for q in sorted(drop, reverse=True):
        nn=t.ndim//2
        ax=nn-1-q
        t=np.trace(t, axis1=ax, axis2=nn+ax)
    d=2**len(keep)
    return t.reshape(d,d)
def sig(qc): return [(i.operation.name, tuple(qc.find_bit(q).index for q in i.qubits), tuple(qc.find_bit(c).index for c in i.clbits)) for i in qc.data]
def check(qc, name, f):
    before=sig(qc)
    out=f(qc.copy())
    after=sig(out)
    # after must be subsequence of before, removed only resets
    removed=[]
    if name[0].isupper():
        # DAG pass: compare per-wire sequences
        from collections import Counter
        def wires(sg, drop=()):
            w={}
            for idx,s_ in enumerate(sg):
                for q in s_[1]: w.setdefault(('q',q),[]).append(s_)
                for c in s_[2]: w.setdefault(('c',c),[]).append(s_)
            return w
        wb=wires(before); wa=wires(after)
        cb=Counter(before); ca=Counter(after)
        diff=cb-ca
        if (ca-cb) or any(k[0]!="reset" for k in diff): return "STRUCT %s %s -> %s"%(name,before,after)
        removed=list(diff.elements())
        for w_,seq in wb.items():
            sa=wa.get(w_,[])
            j=0
            for b in seq:
                if j<len(sa) and sa[j]==b: j+=1
                elif b[0]!="reset": return "STRUCTW %s %s -> %s"%(name,before,after)
            if j!=len(sa): return "STRUCTW %s %s -> %s"%(name,before,after)
    else:
        j=0
        for b in before:
            if j<len(after) and after[j]==b: j+=1
            else: removed.append(b)
        if j!=len(after) or any(r[0]!="reset" for r in removed):
            return "STRUCT %s %s -> %s"%(name,before,after)
    n=qc.num_qubits
    # qubits whose trailing reset was dropped: removed resets that are last op on that qubit in `before`
    dropped=set()
    if name in ("final","RemoveFinalReset"):
        dropped={r[1][0] for r in removed}
    keep=[q for q in range(n) if q not in dropped]
    A=simulate(qc); B=simulate(out)
    for k in set(A)|set(B):
        ra=ptrace_keep(A.get(k,np.zeros((2**n,2**n))),keep,n); rb=ptrace_keep(B.get(k,np.zeros((2**n,2**n))),keep,n)
        if not np.allclose(ra,rb,atol=1e-9): return "SEM %s %s -> %s key %d"%(name,before,after,k)
    return None
passes={"consolidate":lambda c:_consolidate_resets(c),"zero":lambda c:_remove_resets_in_zero_state(c),"final":lambda c:_remove_final_resets(c),
 "RemoveFinalReset":lambda c:PassManager([RemoveFinalReset()]).run(c),"ConsolidateResets":lambda c:PassManager([ConsolidateResets()]).run(c)}
rng=random.Random(int(sys.argv[1])); bad=0
for t in range(int(sys.argv[2])):
    n=rng.randint(1,3); m=rng.randint(0,2); qc=QuantumCircuit(n,m)
    for _ in range(rng.randint(1,9)):
        r=rng.random()
        if r<0.35: qc.reset(rng.randrange(n))
        elif r<0.5: rng.choice([qc.h,qc.x])(rng.randrange(n))
        elif r<0.65 and n>1: a,b=rng.sample(range(n),2); qc.cx(a,b)
        elif r<0.8 and m: qc.measure(rng.randrange(n),rng.randrange(m))
        elif r<0.9: qs=rng.sample(range(n),rng.randint(1,n)); qc.barrier(*qs)
        else: qc.h(rng.randrange(n))
    for nm,f in passes.items():
        e=check(qc,nm,f)
        if e: bad+=1; print(e)
print("done",bad)
