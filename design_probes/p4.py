import numpy as np, random, sys, math, itertools
from qiskit_addon_cutting.qpd import QPDBasis, generate_qpd_weights, WeightType
from qiskit_addon_cutting.qpd.weights import _generate_qpd_weights
rng = random.Random(int(sys.argv[1])); bad=0
def mk(coeffs):
    return QPDBasis([([],[])]*len(coeffs), coeffs)
for t in range(int(sys.argv[2])):
    nb = rng.randint(1,4)
    bases=[]
    for _ in range(nb):
        k = rng.randint(1,7)
        cs = [rng.choice([0,0,1,1,2,3,0.5,0.25,1e-15,1e-9,-1,-2, rng.random()]) for _ in range(k)]
        if all(abs(c)<1e-12 for c in cs): cs[0]=1
        bases.append(mk(cs))
    N = rng.choice([1,1,2,3,7,10,50,1000,2.5,1.5,17.3,1e6, math.inf])
    np.random.seed(rng.randrange(2**31))
    try:
        w = generate_qpd_weights(bases, N)
    except Exception as e:
        print("ERR", type(e).__name__, e, [b.coeffs for b in bases], N); bad+=1; continue
    probs = {m: float(np.prod([b.probabilities[i] for b,i in zip(bases,m)])) for m in itertools.product(*[range(len(b.coeffs)) for b in bases])}
    Nf = N if math.isfinite(N) else 1.0
    thr = 1/N
    for m,p in probs.items():
        if p >= thr*(1+1e-9) and p>1e-14:
            if m not in w or w[m][1]!=WeightType.EXACT or not np.isclose(w[m][0], Nf*p, rtol=1e-9):
                print("MISSING exact", m, p, w.get(m), N, [list(b.coeffs) for b in bases]); bad+=1
    for m,(wt,ty) in w.items():
        if probs[m]==0: print("ZERO prob included", m, wt, ty, N, [list(b.coeffs) for b in bases]); bad+=1
        if ty==WeightType.EXACT and not np.isclose(wt, Nf*probs[m], rtol=1e-9, atol=1e-13):
            print("EXACT wrong", m, wt, Nf*probs[m], N, [list(b.coeffs) for b in bases]); bad+=1
    tot = sum(v[0] for v in w.values())
    if math.isfinite(N):
        if not np.isclose(tot, N, rtol=1e-9): print("SUM", tot, N, [list(b.coeffs) for b in bases]); bad+=1
        if len(w) > math.ceil(N): print("COUNT", len(w), N, [list(b.coeffs) for b in bases]); bad+=1
    else:
        if not np.isclose(tot, 1, atol=1e-12): print("SUMINF", tot)
print("done", bad)
