import numpy as np, random, sys, copy
from qiskit import QuantumCircuit
from qiskit.circuit.library import *
from qiskit.circuit import Instruction
from qiskit.quantum_info import PauliList, random_unitary
from qiskit_addon_cutting import *
from qiskit_addon_cutting.qpd import QPDBasis, TwoQubitQPDGate, SingleQubitQPDGate, decompose_qpd_instructions
from qiskit_addon_cutting.instructions import CutWire, Move
from qiskit_addon_cutting.utils.simulation import ExactSampler
def fp_op(op):
    d=[op.name, getattr(op,"label",None), [ (p.tolist() if isinstance(p,np.ndarray) else p) for p in op.params]]
    if hasattr(op,"basis"): d+=[op.basis_id, fp_basis(op.basis)]
    if hasattr(op,"qubit_id"): d.append(op.qubit_id)
    return repr(d)
def fp_basis(b): return repr([list(map(float,b.coeffs)), [[ [fp_op(o) for o in side] for side in m] for m in b.maps]])
def fp(x):
    if isinstance(x,QuantumCircuit): return repr([x.num_qubits,x.num_clbits,[r.name for r in x.cregs],[(fp_op(i.operation),[x.find_bit(q).index for q in i.qubits],[x.find_bit(c).index for c in i.clbits]) for i in x.data]])
    if isinstance(x,PauliList): return repr([x.z.tolist(),x.x.tolist(),x.phase.tolist()])
    if isinstance(x,QPDBasis): return fp_basis(x)
    if isinstance(x,dict): return repr({repr(k):fp(v) for k,v in x.items()})
    if isinstance(x,(list,tuple)): return repr([fp(v) for v in x])
    return repr(x)
def mutables(x, acc, path="$"):
    # collect id->path of mutable python objects reachable
    if isinstance(x,QuantumCircuit):
        for k,i in enumerate(x.data): mutables(i.operation,acc,path+".data[%d].op"%k)
    elif isinstance(x,Instruction):
        if hasattr(x,"basis"):
            acc.setdefault(id(x),path); mutables(x.basis,acc,path+".basis")
        elif x.mutable if hasattr(x,"mutable") else True:
            if x.params: acc.setdefault(id(x),path)
            for j,p in enumerate(x.params):
                if isinstance(p,np.ndarray): acc.setdefault(id(p),path+".params[%d]"%j)
    elif isinstance(x,QPDBasis):
        acc.setdefault(id(x),path); acc.setdefault(id(x.maps),path+".maps")
        for a,m in enumerate(x.maps):
            for s,side in enumerate(m):
                acc.setdefault(id(side),path+".maps[%d][%d]"%(a,s))
                for o,op in enumerate(side): mutables(op,acc,path+".maps[%d][%d][%d]"%(a,s,o))
    elif isinstance(x,PauliList):
        acc.setdefault(id(x),path)
    elif isinstance(x,dict):
        for k,v in x.items(): mutables(v,acc,path+"[%r]"%(k,))
    elif isinstance(x,(list,tuple)):
        for k,v in enumerate(x): mutables(v,acc,path+"[%d]"%k)
def audit(name, f, *args):
    global CL
    before=[fp(a) for a in args]
    ina={}; 
    for k,a in enumerate(args): mutables(a,ina,"arg%d"%k)
    out=f(*args)
    after=[fp(a) for a in args]
    msgs=[]
    if before!=after: msgs.append("%s MUTATED INPUT"%name)
    outa={}; mutables(out,outa,"out")
    shared=[(outa[i],ina[i]) for i in outa if i in ina]
    import re
    norm=lambda p: re.sub(r"\[[^\]]*\]","[]",p)
    for o,i in shared: CL[(name,norm(o),norm(i))]+=1
    if shared: msgs.append("%s SHARES %d e.g. %s"%(name,len(shared),shared[:2]))
    return out,msgs
rng=random.Random(int(sys.argv[1])); from collections import Counter; C=Counter(); CL=Counter()
for t in range(int(sys.argv[2])):
    n=rng.randint(2,4); qc=QuantumCircuit(n)
    for _ in range(rng.randint(2,7)):
        r=rng.random()
        if r<0.3: qc.append(UnitaryGate(random_unitary(2,seed=rng.randrange(10**6))),[rng.randrange(n)])
        elif r<0.4: qc.ry(0.3,rng.randrange(n))
        elif r<0.55: a,b=rng.sample(range(n),2); qc.append(TwoQubitQPDGate.from_instruction(rng.choice([CXGate(),RZZGate(0.3),UnitaryGate(random_unitary(4,seed=5))])),[a,b])
        else: a,b=rng.sample(range(n),2); qc.append(rng.choice([CXGate(),RZZGate(0.4),CRYGate(0.2),UnitaryGate(random_unitary(4,seed=rng.randrange(10**6)))]),[a,b])
    labs=[rng.choice("AB") for _ in range(n)]
    if len(set(labs))==1: labs[0]="A"; labs[-1]="B"
    obs=PauliList(["".join(rng.choice("IXYZ") for _ in range(n)) for _ in range(2)])
    msgs=[]
    try:
        pp,m=audit("partition_problem",partition_problem,qc,labs,obs); msgs+=m
        if np.prod([len(b.maps) for b in pp.bases])<=400:
            (subs,coefs),m=audit("generate(dict)",generate_cutting_experiments,pp.subcircuits,pp.subobservables,np.inf); msgs+=m
            res={l:ExactSampler().run(s).result() for l,s in subs.items()}
            _,m=audit("reconstruct",reconstruct_expectation_values,res,coefs,pp.subobservables); msgs+=m
        ids=[i for i,x in enumerate(qc.data) if len(x.qubits)==2 and x.operation.name!="qpd_2q"]
        if ids:
            qcg,m=audit("cut_gates",cut_gates,qc,ids[:1]); msgs+=m
        _,m=audit("partition_circuit_qubits",partition_circuit_qubits,qc,labs); msgs+=m
        plain=QuantumCircuit(n)
        for i in qc.data:
            if i.operation.name!="qpd_2q": plain.append(i)
        if rng.random()<0.5: plain.append(CutWire(),[0])
        o2,m=audit("cut_wires",cut_wires,plain); msgs+=m
        _,m=audit("expand_observables",expand_observables,obs,plain,o2); msgs+=m
        noc=QuantumCircuit(n)
        for i in plain.data:
            if i.operation.name!="cut_wire": noc.append(i)
        _,m=audit("find_cuts",find_cuts,noc,OptimizationParameters(seed=1),DeviceConstraints(max(1,n-1))); msgs+=m
    except Exception as e:
        msgs.append("ERR %s %s"%(type(e).__name__,str(e)[:60]))
    for m in msgs: C[m.split(" e.g.")[0].split(" SHARES")[0]+(" SHARES" if "SHARES" in m else "")]+=1; 
    if msgs and t<3: print(msgs)
for k,v in C.most_common(): print(v,k)

for k,v in sorted(CL.items()): print(v,k)
