import numpy as np, random, sys
from qiskit.circuit.library import *
from qiskit.circuit import Gate
from qiskit.quantum_info import Operator, random_unitary
from qiskit_addon_cutting.qpd import QPDBasis
from qiskit_addon_cutting.instructions import Move
PAULI=[np.eye(2),np.array([[0,1],[1,0]]),np.array([[0,-1j],[1j,0]]),np.diag([1,-1])]
def ptm_kraus(Ks, signs=None):
    R=np.zeros((4,4))
    for a in range(4):
        for b in range(4):
            out=sum((s if signs else 1)*K@PAULI[b]@K.conj().T for K,s in zip(Ks, signs or [1]*len(Ks)))
            R[a,b]=0.5*np.trace(PAULI[a]@out).real
    return R
P0=np.diag([1,0]).astype(complex); P1=np.diag([0,1]).astype(complex); X=PAULI[1]
def ptm_op(op):
    if op.name=="qpd_measure": return ptm_kraus([P0,P1],[1,-1])
    if op.name=="reset": return ptm_kraus([P0, X@P1])
    return ptm_kraus([Operator(op).data])
def ptm_seq(ops):
    R=np.eye(4)
    for op in ops: R=ptm_op(op)@R
    return R
def ptm2_unitary(U):
    R=np.zeros((16,16))
    for a0 in range(4):
      for a1 in range(4):
        for b0 in range(4):
          for b1 in range(4):
            Pa=np.kron(PAULI[a1],PAULI[a0]); Pb=np.kron(PAULI[b1],PAULI[b0])
            R[a1*4+a0,b1*4+b0]=0.25*np.trace(Pa@U@Pb@U.conj().T).real
    return R
def ptm2_move():
    # move: reset qubit1 then swap: channel: rho -> swap (id x reset)(rho) swap
    R=np.zeros((16,16))
    SW=Operator(SwapGate()).data
    for b0 in range(4):
      for b1 in range(4):
        Pb=np.kron(PAULI[b1],PAULI[b0])
        K0=np.kron(P0,np.eye(2)); K1=np.kron(X@P1,np.eye(2))
        out=K0@Pb@K0.conj().T+K1@Pb@K1.conj().T
        out=SW@out@SW.conj().T
        for a0 in range(4):
          for a1 in range(4):
            R[a1*4+a0,b1*4+b0]=0.25*np.trace(np.kron(PAULI[a1],PAULI[a0])@out).real
    return R
def check(gate):
    b=QPDBasis.from_instruction(gate)
    tot=np.zeros((16,16))
    for c,(m0,m1) in zip(b.coeffs,b.maps):
        tot+=c*np.kron(ptm_seq(m1),ptm_seq(m0))
    ref=ptm2_move() if gate.name=="move" else ptm2_unitary(Operator(gate).data)
    return np.abs(tot-ref).max(), b.kappa
rng=random.Random(int(sys.argv[1])); bad=0
fixed=[CXGate(),CYGate(),CZGate(),CHGate(),CSGate(),CSdgGate(),CSXGate(),CSXGate().inverse(),ECRGate(),SwapGate(),iSwapGate(),DCXGate(),Move()]
for g in fixed:
    e,k=check(g); print(g.name, "%.2e"%e, k)
    if e>1e-9: bad+=1
angles=[0,np.pi,-np.pi,2*np.pi,4*np.pi,-6*np.pi,np.pi/2,-np.pi/2,1e-9,-1e-12,13.7,-25.1,8*np.pi+0.1,np.pi/4,3*np.pi/4]+[rng.uniform(-26,26) for _ in range(20)]
for cls in (RXXGate,RYYGate,RZZGate,CRXGate,CRYGate,CRZGate,CPhaseGate,RZXGate):
    for th in angles:
        e,k=check(cls(th))
        if e>1e-9: bad+=1; print("BAD",cls.__name__,th,e)
for th in angles:
    for g in (XXPlusYYGate(th,rng.uniform(-3,3)),XXMinusYYGate(th,rng.uniform(-3,3))):
        e,k=check(g)
        if e>1e-9: bad+=1; print("BAD",g.name,th,e)
# KAK corners
from qiskit.synthesis.two_qubit.two_qubit_decompose import TwoQubitWeylDecomposition
q=np.pi/4
corners=[(0,0,0),(q,0,0),(q,q,0),(q,q,q),(q,q,-q),(q/2,0,0),(q,q/2,0),(q,q,q/2),(q,q/2,q/2),(q,q/2,-q/2),(q/2,q/2,q/2),(q/2,q/2,-q/2),(q/3,q/5,q/7)]
for (a,b,c) in corners:
    for _ in range(4):
        XX=np.kron(PAULI[1],PAULI[1]);YY=np.kron(PAULI[2],PAULI[2]);ZZ=np.kron(PAULI[3],PAULI[3])
        import scipy.linalg as la
        U=la.expm(1j*(a*XX+b*YY+c*ZZ))
        L=np.kron(random_unitary(2,seed=rng.randrange(10**6)).data,random_unitary(2,seed=rng.randrange(10**6)).data)
        R_=np.kron(random_unitary(2,seed=rng.randrange(10**6)).data,random_unitary(2,seed=rng.randrange(10**6)).data)
        try:
            e,k=check(UnitaryGate(L@U@R_))
        except Exception as ex:
            print("ERR",(a,b,c),type(ex).__name__,ex); bad+=1; continue
        if e>1e-8: bad+=1; print("BAD corner",(a,b,c),e)
for _ in range(30):
    e,k=check(UnitaryGate(random_unitary(4,seed=rng.randrange(10**6))))
    if e>1e-8: bad+=1; print("BAD haar",e)
# local products / identity
for _ in range(5):
    e,k=check(UnitaryGate(np.kron(random_unitary(2,seed=rng.randrange(10**6)).data,random_unitary(2,seed=rng.randrange(10**6)).data)))
    if e>1e-8: bad+=1; print("BAD local",e,k)
e,k=check(UnitaryGate(np.eye(4))); print("identity",e,k)
print("done",bad)
