import numpy as np, random, sys, traceback
from qiskit import QuantumCircuit
from qiskit.circuit.library import *
from qiskit.quantum_info import PauliList, Statevector, random_unitary, Pauli
from qiskit_addon_cutting import partition_problem, generate_cutting_experiments, reconstruct_expectation_values, cut_gates
from qiskit_addon_cutting.utils.simulation import ExactSampler

TWO = ["cx","cy","cz","ch","cs","csdg","csx","ecr","swap","iswap","dcx","rxx","ryy","rzz","crx","cry","crz","cp","rzx","xxpy","xxmy","u2q"]
def gate2(rng, name):
    th = rng.choice([0.0, np.pi, -np.pi, 2*np.pi, 0.3, -1.7, 5*np.pi+0.2, 1e-9, np.pi/2, 13.0])
    return {"cx":CXGate,"cy":CYGate,"cz":CZGate,"ch":CHGate,"cs":CSGate,"csdg":CSdgGate,"csx":CSXGate,"ecr":ECRGate,
     "swap":SwapGate,"iswap":iSwapGate,"dcx":DCXGate}.get(name, lambda: None)() or {
     "rxx":RXXGate,"ryy":RYYGate,"rzz":RZZGate,"crx":CRXGate,"cry":CRYGate,"crz":CRZGate,"cp":CPhaseGate,"rzx":RZXGate}.get(name, lambda t: None)(th) or (
     XXPlusYYGate(th, 0.7) if name=="xxpy" else XXMinusYYGate(th,-0.4) if name=="xxmy" else UnitaryGate(random_unitary(4, seed=rng.randrange(10**6))))

def rand_problem(rng):
    n = rng.randint(1,5)
    qc = QuantumCircuit(n)
    for _ in range(rng.randint(1,8)):
        r = rng.random()
        if r<0.35 or n==1:
            qc.append(UnitaryGate(random_unitary(2, seed=rng.randrange(10**6))), [rng.randrange(n)])
        elif r<0.45:
            qs = rng.sample(range(n), rng.randint(1,n)); qc.barrier(*qs)
        else:
            a,b = rng.sample(range(n),2); qc.append(gate2(rng, rng.choice(TWO)), [a,b])
    k = rng.randint(1,min(4,n))
    labs = [rng.choice(["A",1,(2,"x"),"B"][:k]) for _ in range(n)]
    obs = PauliList(["".join(rng.choice("IXYZ") for _ in range(n)) for _ in range(rng.randint(1,4))])
    return qc, labs, obs

rng = random.Random(int(sys.argv[1])); bad=0
for t in range(int(sys.argv[2])):
    qc, labs, obs = rand_problem(rng)
    mode = rng.choice(["labels","auto"])
    try:
        pp = partition_problem(qc, labs if mode=="labels" else None, obs)
        if len(pp.bases) > 3: continue
        tot = np.prod([len(b.maps) for b in pp.bases]) if pp.bases else 1
        if tot > 4000: continue
        subs, coefs = generate_cutting_experiments(pp.subcircuits, pp.subobservables, np.inf)
        res = {l: ExactSampler().run(s).result() for l,s in subs.items()}
        vals = reconstruct_expectation_values(res, coefs, pp.subobservables)
    except Exception as e:
        print("ERR", mode, type(e).__name__, str(e)[:100], labs); continue
    ref = [Statevector(qc).expectation_value(o).real for o in obs]
    if not np.allclose(vals, ref, atol=1e-8):
        bad+=1; print("MISMATCH", mode, labs, obs, vals, ref); print(qc)
    kap = np.prod([b.kappa for b in pp.bases]) if pp.bases else 1
    if not np.isclose(sum(abs(c) for c,_ in coefs), kap): print("KAPPA", sum(abs(c) for c,_ in coefs), kap); bad+=1
print("done", bad)
