import numpy as np, random, sys
from qiskit import QuantumCircuit
from qiskit.circuit.library import *
from qiskit_addon_cutting.qpd import QPDBasis, TwoQubitQPDGate, SingleQubitQPDGate, decompose_qpd_instructions
from qiskit_addon_cutting.instructions import Move
rng=random.Random(int(sys.argv[1])); bad=0
def sig(qc): return [(i.operation.name, tuple(np.round(np.array(i.operation.params,dtype=float),9)) if i.operation.name!="unitary" else (), tuple(qc.find_bit(q).index for q in i.qubits), tuple(qc.find_bit(c).index for c in i.clbits)) for i in qc.data]
for t in range(int(sys.argv[2])):
    n=rng.randint(1,4); qc=QuantumCircuit(n); ids=[]; bases=[]; spec=[]  # spec: list of either ('inst',sig) or ('qpd', basis, half, qubit, decomp index)
    nd=0
    for _ in range(rng.randint(1,8)):
        r=rng.random()
        if r<0.4 or n==1 and r<0.7:
            q=rng.randrange(n); g=rng.choice([HGate(),XGate(),RZGate(0.3)]); qc.append(g,[q]); spec.append(("inst",(g.name,tuple(np.round(np.array(g.params,dtype=float),9)),(q,),())))
        elif r<0.6 and n>1:
            a,b=rng.sample(range(n),2); qc.cx(a,b); spec.append(("inst",("cx",(),(a,b),())))
        elif r<0.8 and n>1:
            a,b=rng.sample(range(n),2); g=rng.choice([CXGate(),RZZGate(0.4),SwapGate(),Move(),CRYGate(1.1)])
            gate=TwoQubitQPDGate.from_instruction(g); ids.append([len(qc.data)]); qc.append(gate,[a,b]); 
            spec.append(("qpd",gate.basis,0,a,nd)); spec.append(("qpd",gate.basis,1,b,nd)); nd+=1
        elif r<0.9 and n>1:
            a,b=rng.sample(range(n),2); basis=QPDBasis.from_instruction(rng.choice([CZGate(),RXXGate(0.2),Move()]))
            i1=len(qc.data); qc.append(SingleQubitQPDGate(basis,0,label="x_%d"%nd),[a]); spec.append(("qpd",basis,0,a,nd))
            # something in between
            if rng.random()<0.5:
                q=rng.randrange(n); qc.h(q); spec.append(("inst",("h",(),(q,),())))
            i2=len(qc.data); qc.append(SingleQubitQPDGate(basis,1,label="x_%d"%nd),[b]); spec.append(("qpd",basis,1,b,nd))
            ids.append([i1,i2]); nd+=1
        else:
            q=rng.randrange(n); basis=QPDBasis([([HGate()],),([],),([XGate(),ZGate()],)],[0.5,0.25,0.25])
            ids.append([len(qc.data)]); qc.append(SingleQubitQPDGate(basis,0),[q]); spec.append(("qpd",basis,0,q,nd)); nd+=1
    # shuffle order of ids (decomposition order arbitrary)
    perm=list(range(nd)); rng.shuffle(perm)
    ids2=[ids[p] for p in perm]
    bl={}
    for s in spec:
        if s[0]=="qpd": bl[s[4]]=s[1]
    mids=[rng.randrange(len(bl[p].maps)) for p in perm]
    mid_of={p:m for p,m in zip(perm,mids)}
    before=sig(qc) if False else None
    try:
        out=decompose_qpd_instructions(qc,ids2,mids)
    except Exception as e:
        print("ERR",type(e).__name__,e); bad+=1; continue
    exp=[]; nmeas=0
    for s in spec:
        if s[0]=="inst": exp.append(s[1])
        else:
            _,basis,half,q,d=s
            for op in basis.maps[mid_of[d]][half]:
                if op.name=="qpd_measure": exp.append(("measure",(),(q,),(nmeas,))); nmeas+=1
                else: exp.append((op.name, tuple(np.round(np.array(op.params,dtype=float),9)) if op.name!="unitary" else (), (q,), ()))
    got=sig(out)
    ok = got==exp and out.cregs[-1].name=="qpd_measurements" and out.cregs[-1].size==max(1,nmeas) and all(i.operation.name not in("qpd_1q","qpd_2q","qpd_measure") for i in out.data)
    if not ok:
        bad+=1; print("MISMATCH"); print(got); print(exp)
    if any(i.operation.name.startswith("qpd") and i.operation.basis_id is not None for i in qc.data): print("INPUT MUTATED"); bad+=1
print("done",bad)
