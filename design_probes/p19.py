import numpy as np, random, sys
from qiskit import QuantumCircuit, QuantumRegister
from qiskit.circuit.library import UnitaryGate
from qiskit.quantum_info import PauliList, Statevector, random_unitary
from qiskit_addon_cutting import *
from qiskit_addon_cutting.instructions import CutWire, Move
from qiskit_addon_cutting.utils.simulation import ExactSampler
rng=random.Random(int(sys.argv[1])); bad=0
def per_qubit(c):
    seqs={q:[] for q in range(c.num_qubits)}
    for i in c.data:
        for q in i.qubits: seqs[c.find_bit(q).index].append(i.operation.name)
    return seqs
for t in range(int(sys.argv[2])):
    n=rng.randint(1,4)
    regs=[QuantumRegister(k,name="r%d"%j) for j,k in enumerate([n] if rng.random()<0.6 or n==1 else [1,n-1])]
    qc=QuantumCircuit(*regs); ref=QuantumCircuit(*regs)
    nm=0
    for _ in range(rng.randint(1,8)):
        r=rng.random()
        if r<0.3 and nm<3:
            qc.append(CutWire(),[rng.randrange(n)]); nm+=1
        elif r<0.6 or n==1:
            g=UnitaryGate(random_unitary(2,seed=rng.randrange(10**6))); q=rng.randrange(n); qc.append(g,[q]); ref.append(g,[q])
        else:
            a,b=rng.sample(range(n),2); g=UnitaryGate(random_unitary(4,seed=rng.randrange(10**6))); qc.append(g,[a,b]); ref.append(g,[a,b])
    if nm==0: continue
    obs=PauliList(["".join(rng.choice("IIXYZ") for _ in range(n)) for _ in range(rng.randint(1,3))])
    try:
        qc1=cut_wires(qc); obs1=expand_observables(obs,qc,qc1)
        if qc1.num_qubits!=n+nm: print("QUBITS",qc1.num_qubits,n,nm); bad+=1
        pp=partition_problem(qc1,observables=obs1)
        if np.prod([len(b.maps) for b in pp.bases])>600: continue
        subs,coefs=generate_cutting_experiments(pp.subcircuits,pp.subobservables,np.inf)
        res={l:ExactSampler().run(s).result() for l,s in subs.items()}
        vals=reconstruct_expectation_values(res,coefs,pp.subobservables)
    except Exception as e:
        print("ERR",type(e).__name__,str(e)[:80]); bad+=1; continue
    refv=[Statevector(ref).expectation_value(o).real for o in obs]
    if not np.allclose(vals,refv,atol=1e-8): bad+=1; print("VAL",vals,refv); print(qc)
    nres=sum(c.count_ops().get("reset",0) for s in subs.values() for c in s)
    if nres: bad+=1; print("RESETS",nres, obs); print(qc)
# reuse chains
for t in range(int(sys.argv[2])//2):
    n=rng.randint(2,4); qc=QuantumCircuit(n)
    for _ in range(rng.randint(2,8)):
        r=rng.random()
        if r<0.35:
            a,b=rng.sample(range(n),2); qc.append(TwoQubitQPDGate.from_instruction(Move()) if False else Move(),[a,b])
        elif r<0.7: qc.append(UnitaryGate(random_unitary(2,seed=rng.randrange(10**6))),[rng.randrange(n)])
        else:
            a,b=rng.sample(range(n),2); qc.cx(a,b)
    ids=[i for i,x in enumerate(qc.data) if x.operation.name=="move"]
    if not ids or len(ids)>2: continue
    from qiskit_addon_cutting import cut_gates
    obs=PauliList(["".join(rng.choice("IXYZ") for _ in range(n)) for _ in range(2)])
    try:
        cq,bases=cut_gates(qc,ids)
        subs,coefs=generate_cutting_experiments(cq,obs,np.inf)
        res=ExactSampler().run(subs).result()
        vals=reconstruct_expectation_values(res,coefs,obs)
    except Exception as e:
        print("ERR2",type(e).__name__,str(e)[:80]); bad+=1; continue
    # reference: density matrix with move as reset+swap
    import refsim
    dq=qc.decompose(["move"])
    br=refsim.simulate(dq); rho=sum(br.values())
    from qiskit.quantum_info import Operator
    refv=[np.trace(rho@Operator(o).data).real for o in obs]
    if not np.allclose(vals,refv,atol=1e-8): bad+=1; print("VAL2",vals,refv); print(qc)
    for c in subs:
        for q,seq in per_qubit(c).items():
            if seq and (seq[0]=="reset" or seq[-1]=="reset" or any(a=="reset" and b=="reset" for a,b in zip(seq,seq[1:]))):
                bad+=1; print("RESETSHAPE",q,seq); break
print("done",bad)
