import numpy as np, itertools, random, sys, traceback
from qiskit import QuantumCircuit
from qiskit_addon_cutting import find_cuts, OptimizationParameters, DeviceConstraints, cut_wires, partition_problem
from qiskit_addon_cutting.qpd import QPDBasis

def rand_circ(rng, n, g):
    qc = QuantumCircuit(n)
    for _ in range(g):
        k = rng.random()
        if k < 0.2:
            qc.h(rng.randrange(n))
        elif k < 0.3 and n>=2:
            qs = rng.sample(range(n), rng.randint(2,n)); qc.barrier(*qs)
        else:
            a,b = rng.sample(range(n),2)
            t = rng.choice(["cx","swap","rzz","cs"])
            if t=="cx": qc.cx(a,b)
            elif t=="swap": qc.swap(a,b)
            elif t=="cs": qc.cs(a,b)
            else: qc.rzz(rng.choice([0.3,1.0,np.pi/2]),a,b)
    return qc

def analyse(out, W):
    # independent: segments + union find ignoring barriers
    n = out.num_qubits
    seg = list(range(n)); nseg = n
    parent = {}
    def find(x):
        parent.setdefault(x,x)
        while parent[x]!=x:
            parent[x]=parent[parent[x]]; x=parent[x]
        return x
    def union(a,b):
        a,b=find(a),find(b)
        if a!=b: parent[a]=b
    gamma=1.0
    for inst in out.data:
        qs=[out.find_bit(q).index for q in inst.qubits]
        nm=inst.operation.name
        if nm=="barrier": continue
        if nm=="cut_wire":
            seg[qs[0]]=nseg; nseg+=1; gamma*=4; continue
        if nm=="qpd_2q":
            gamma*=inst.operation.basis.kappa; 
            for q in qs: find(seg[q])
            continue
        for q in qs: find(seg[q])
        if len(qs)==2: union(seg[qs[0]],seg[qs[1]])
    for s in range(nseg): find(s)
    from collections import Counter
    c=Counter(find(s) for s in range(nseg))
    # idle original segments which never used: count them anyway as width-1 comps
    return max(c.values()), gamma**2

def brute(qc, W, gate_lo, wire_lo):
    gates=[(i,[qc.find_bit(q).index for q in inst.qubits], inst.operation) for i,inst in enumerate(qc.data) if len(inst.qubits)==2 and inst.operation.name!="barrier"]
    opts=[0]+([1] if gate_lo else [])+([2,3,4] if wire_lo else [])
    best=None
    for assign in itertools.product(opts, repeat=len(gates)):
        n=qc.num_qubits; seg=list(range(n)); nseg=n; parent={}
        def find(x):
            parent.setdefault(x,x)
            while parent[x]!=x: x=parent[x]
            return x
        g=1.0
        for (i,qs,op),a in zip(gates,assign):
            if a==1: g*=QPDBasis.from_instruction(op).kappa; find(seg[qs[0]]); find(seg[qs[1]]); continue
            if a in (2,4): seg[qs[0]]=nseg; nseg+=1; g*=4
            if a in (3,4): seg[qs[1]]=nseg; nseg+=1; g*=4
            ra,rb=find(seg[qs[0]]),find(seg[qs[1]])
            if ra!=rb: parent[ra]=rb
        from collections import Counter
        c=Counter(find(s) for s in range(nseg))
        if max(c.values())<=W:
            if best is None or g<best: best=g
    return None if best is None else best**2

rng=random.Random(int(sys.argv[1]) if len(sys.argv)>1 else 0)
bad=0
for t in range(int(sys.argv[2]) if len(sys.argv)>2 else 200):
    n=rng.randint(2,5); qc=rand_circ(rng,n,rng.randint(1,7))
    W=rng.randint(1,n); gl=rng.random()<0.8; wl=rng.random()<0.7
    seed=rng.choice([None,0,1,5]); mg=rng.choice([1,2.5,9,1024]); mb=rng.choice([None,0,1,10000])
    try:
        out,meta=find_cuts(qc,OptimizationParameters(seed=seed,max_gamma=mg,max_backjumps=mb,gate_lo=gl,wire_lo=wl),DeviceConstraints(W))
    except Exception as e:
        b=brute(qc,W,gl,wl)
        if b is not None:
            bad+=1; print("ERROR but feasible", type(e).__name__, e, n,W,gl,wl,mg,mb); print(qc)
        continue
    w,ov=analyse(out,W)
    b=brute(qc,W,gl,wl)
    ok = w<=W and abs(ov-meta["sampling_overhead"])<1e-6*max(1,ov)
    if not ok:
        bad+=1; print("BAD width/overhead", w,W,ov,meta, n,gl,wl); print(qc); print(out)
    if b is None or b>meta["sampling_overhead"]*(1+1e-9):
        bad+=1; print("brute worse?", b, meta)
    if meta["minimum_reached"] and b is not None and b<meta["sampling_overhead"]*(1-1e-9):
        bad+=1; print("NOT OPTIMAL", b, meta, n,W,gl,wl,mg,mb,seed); print(qc)
    if mb is None and mg>= (b or 1)**0.5 and not meta["minimum_reached"]:
        bad+=1; print("UNRESTRICTED but not min reached", b, meta, n,W,gl,wl,mg,mb,seed); print(qc)
print("done bad=",bad)
