import numpy as np, random, sys, pickle
from qiskit import QuantumCircuit
from qiskit_addon_cutting import find_cuts, OptimizationParameters, DeviceConstraints
from p7 import rand_circ
rng=random.Random(int(sys.argv[1]))
calls=[]
for _ in range(25):
    n=rng.randint(2,5); qc=rand_circ(rng,n,rng.randint(1,7)); W=rng.randint(1,n)
    calls.append((qc,dict(seed=rng.choice([0,1,5,123]),max_gamma=rng.choice([1,2.5,9,1024]),max_backjumps=rng.choice([None,0,1,3,10000]),gate_lo=rng.random()<0.8,wire_lo=rng.random()<0.7),W))
def run(c):
    qc,o,W=c
    try:
        out,meta=find_cuts(qc,OptimizationParameters(**o),DeviceConstraints(W))
        return ([(i.operation.name,tuple(out.find_bit(q).index for q in i.qubits)) for i in out.data],meta["cuts"],float(meta["sampling_overhead"]),meta["minimum_reached"])
    except Exception as e: return ("ERR",type(e).__name__)
base=[run(c) for c in calls]
bad=0
for rep in range(4):
    order=list(range(len(calls))); rng.shuffle(order)
    np.random.seed(rep); random.seed(rep); [np.random.random() for _ in range(rep*7)]
    for i in order+order[:5]:
        if run(calls[i])!=base[i]: bad+=1; print("DIFF",i,calls[i][1])
print("done",bad)
