#!/bin/bash
# tools/soak.sh "<seeds>" [tier]  — every registered check on the unchanged tree for several seeds; evidence/replays of these runs go to
# a scratch directory (the committed evidence is refreshed separately with ./check <ID>).  Prints every non-zero exit.
cd "$(dirname "$0")/.."
SEEDS=${1:-"1 2 3"}
TIER=${2:-quick}
D=/tmp/soak-$$
mkdir -p $D
for s in $SEEDS; do for n in $(seq -w 1 19); do echo "$s C$n"; done; done | \
  xargs -P ${P:-6} -L1 sh -c 'VERIF_SEED=$0 VERIF_EVIDENCE_DIR='$D'/ev-$0 VERIF_REPLAY_DIR='$D'/rp-$0 ./check $1 --tier '$TIER' > '$D'/$1-$0.log 2>&1; echo "$1 seed=$0 exit=$?" >> '$D'/exits'
sort $D/exits | grep -v "exit=0" || echo "all exits 0"
echo "runs: $(wc -l < $D/exits)  dir: $D"
