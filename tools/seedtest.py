#!/venv/bin/python
"""Confirm a seeded change and run the registered check against it.

usage: tools/seedtest.py <src_dir> <PROP> <k> [--tier quick|thorough] [--extra-checks C01,C05]
  <src_dir> holds patch<k>.diff, demo<k>.py, meta<k>.json (as delivered by a sub-agent), or
  a /verif/seeded/<PROP>-<k>/ directory (patch.diff, demo.py, meta.json).

What is run (nothing touches /repo: the change is applied to a scratch worktree of /repo's HEAD which is put in
front of the installed package with PYTHONPATH, and the check reads sources through CKT_REPO):
  1. existing suite on the changed tree (must pass), 2. demonstration on the changed tree (must fail),
  3. demonstration on the clean tree (must pass), 4. ./check <PROP> --tier <tier> on the changed tree (should report a VIOLATION).
Results go to /verif/seeded/<PROP>-<k>/ (patch.diff, demo.py, meta.json).  Evidence and replays of these runs are
redirected to a scratch directory so that the committed evidence is never written from a changed tree.
"""
import json, os, re, shutil, subprocess, sys, tempfile, time
from pathlib import Path

VERIF = Path(__file__).resolve().parent.parent
OUT = Path("/verif/seeded")
REPO = os.environ.get("VP_RUN_REPO") or "/repo"


def sh(cmd, cwd=None, env=None, timeout=3600):
    p = subprocess.run(cmd, shell=True, cwd=cwd, env=env, capture_output=True, text=True, timeout=timeout)
    return p.returncode, (p.stdout + p.stderr)


def main():
    src, pid, k = Path(sys.argv[1]), sys.argv[2].upper(), sys.argv[3]
    tier = "quick"
    extra = []
    if "--tier" in sys.argv:
        tier = sys.argv[sys.argv.index("--tier") + 1]
    if "--extra-checks" in sys.argv:
        extra = sys.argv[sys.argv.index("--extra-checks") + 1].split(",")
    skip_confirm = "--skip-confirm" in sys.argv
    if (src / f"patch{k}.diff").exists():
        patch, demo, meta = src / f"patch{k}.diff", src / f"demo{k}.py", src / f"meta{k}.json"
    else:
        patch, demo, meta = src / "patch.diff", src / "demo.py", src / "meta.json"
    kname = sys.argv[sys.argv.index("--as") + 1] if "--as" in sys.argv else k
    dst = OUT / f"{pid}-{kname}"
    dst.mkdir(parents=True, exist_ok=True)
    # a re-verification (--skip-confirm) never rewrites an existing patch: a run started from an older snapshot of /verif would otherwise
    # put an outdated patch back (this happened to three patches that had been rebased onto a /repo fix)
    if patch.resolve() != (dst / "patch.diff").resolve() and not (skip_confirm and (dst / "patch.diff").exists()):
        shutil.copy(patch, dst / "patch.diff")
        shutil.copy(demo, dst / "demo.py")
    try:
        m = json.loads(meta.read_text())
    except Exception:
        m = {}
    scratch = Path(tempfile.mkdtemp(prefix=f"seedchk-{pid}-{k}-", dir="/tmp"))
    wt = scratch / "wt"
    res = dict(m.get("confirmed", {})) if skip_confirm else {}
    try:
        rc, out = sh(f"git -C {REPO} worktree add -q --detach {wt} HEAD")
        assert rc == 0, out
        env = dict(os.environ, PYTHONPATH=str(wt), CKT_REPO=str(wt), PYTHONWARNINGS="ignore",
                   VERIF_EVIDENCE_DIR=str(scratch / "evidence"), VERIF_REPLAY_DIR=str(scratch / "replays"))
        if not skip_confirm:
            rc, out = sh(f"PYTHONPATH={wt} /venv/bin/python {dst/'demo.py'}", cwd=scratch, env=env, timeout=1800)
            res["demo_clean"] = "PASS" if rc == 0 else f"exit {rc}: {out[-300:]}"
        rc, out = sh(f"git -C {wt} apply {dst/'patch.diff'}")
        assert rc == 0, "patch does not apply: " + out
        if not skip_confirm:
            rc, out = sh("/venv/bin/python -m pytest -q -p no:cacheprovider --timeout=900 2>&1 | tail -3", cwd=wt, env=env, timeout=3000)
            mm = re.search(r"(\d+) passed", out)
            res["suite_with_change"] = out.strip().splitlines()[-1] if out.strip() else "?"
            res["suite_ok"] = bool(mm and int(mm.group(1)) >= 227 and "failed" not in out)
            rc, out = sh(f"/venv/bin/python {dst/'demo.py'}", cwd=scratch, env=env, timeout=1800)
            res["demo_changed"] = "PASS (change not demonstrated!)" if rc == 0 else f"FAIL exit {rc}: {out.strip()[-300:]}"
        checks = {}
        for c in [pid] + extra:
            t0 = time.time()
            rc, out = sh(f"./check {c} --tier {tier}", cwd=VERIF, env=env, timeout=7200)
            lines = [l for l in out.splitlines() if l.startswith(("VIOLATION", "KNOWN-FINDING", "[" + c))]
            lines.sort(key=lambda l: (not l.startswith("VIOLATION"), l.startswith("KNOWN-FINDING")))
            lines = [l[:300] for l in lines]
            rp = None
            for l in lines:
                mm = re.search(r"replay=(\S+)", l)
                if mm:
                    q = Path(mm.group(1))
                    q = q if q.is_absolute() else VERIF / q
                    if q.exists():
                        rp = json.loads(q.read_text())
                        break
            checks[c] = {"exit": rc, "lines": lines[:8], "wall_s": round(time.time() - t0, 1),
                         "replay_what": (json.dumps(rp.get("what"))[:600] if rp else None),
                         "replay_kind": (rp.get("kind") if rp else None)}
        res["checks"] = checks
        res["detected"] = checks[pid]["exit"] == 1
        res["detected_with_input"] = any(l.startswith("VIOLATION") and "no-failing-input-found" not in l for l in checks[pid]["lines"])
    finally:
        sh(f"git -C {REPO} worktree remove --force {wt}")
        shutil.rmtree(scratch, ignore_errors=True)
    m_out = {"property": pid, "summary": m.get("summary"), "needs_to_manifest": m.get("needs_to_manifest"),
             "files": m.get("files"), "author": "independent sub-agent (saw only the property text and a scratch worktree)",
             "confirmed": res, "tier": tier, "note": m.get("note"),
             **({"excluded": m["excluded"]} if m.get("excluded") else {}),   # a seed kept for the record but not counted stays marked
             "how_run": f"tools/seedtest.py <dir> {pid} {kname} (scratch worktree of /repo HEAD + PYTHONPATH/CKT_REPO; /repo untouched)"}
    if not os.environ.get("SEEDTEST_NOWRITE"):
        (dst / "meta.json").write_text(json.dumps(m_out, indent=1))
    print(json.dumps({"id": f"{pid}-{kname}", **{kk: res.get(kk) for kk in ("suite_ok", "demo_clean", "demo_changed", "detected", "detected_with_input")},
                      "lines": res["checks"][pid]["lines"][:3]}, indent=1))


if __name__ == "__main__":
    main()
