#!/bin/bash
# tools/seedall.sh <seed> [write]   — run the registered quick check against every seeded change (scratch worktrees; /repo untouched)
# logs: /tmp/seedall-<seed>/<id>.log ; summary printed at the end.  With "write" the meta.json files are refreshed.
cd "$(dirname "$0")/.."
S=${1:-0}
D=/tmp/seedall-$S
rm -rf $D; mkdir -p $D
export VERIF_SEED=$S
[ "$2" = "write" ] || export SEEDTEST_NOWRITE=1
ls seeded | grep -E '^C[0-9]+-[0-9]+$' | xargs -P ${P:-6} -I{} sh -c 'id={}; p=${id%-*}; k=${id#*-}; tools/seedtest.py seeded/$id $p $k --skip-confirm > '$D'/$id.log 2>&1'
tot=0; det=0; inp=0
for f in $D/*.log; do
  id=$(basename $f .log)
  grep -q '"excluded"' seeded/$id/meta.json 2>/dev/null && continue
  tot=$((tot+1))
  grep -q '"detected": true' $f && det=$((det+1)) || echo "NOT DETECTED: $f"
  grep -q '"detected_with_input": true' $f && inp=$((inp+1)) || echo "NO INPUT: $f"
done
echo "seed=$S total=$tot detected=$det with_input=$inp" | tee $D/SUMMARY
