#!/usr/bin/env python3
"""Regenerate /verif/seeded/TABLE.md from the meta.json files written by tools/seedtest.py."""
import json
from pathlib import Path

ROOT = Path(__file__).resolve().parent.parent / "seeded"


def cell(s, n):
    s = " ".join(str(s or "").split()).replace("|", "/")
    return s if len(s) <= n else s[: n - 1] + "…"


def main():
    rows = []
    tot = det = inp = 0
    for d in sorted((x for x in ROOT.iterdir() if x.is_dir() and "-" in x.name), key=lambda p: tuple(p.name.split("-")[:2])):
        mp = d / "meta.json"
        if not mp.exists():
            continue
        m = json.loads(mp.read_text())
        c = m.get("confirmed", {})
        chk = c.get("checks", {}).get(m["property"], {})
        if m.get("excluded"):
            rows.append(f"| {d.name} | {cell(m.get('summary'), 260)} | {cell(m.get('needs_to_manifest'), 220)} | not counted — {cell(m['excluded'], 300)} |")
            continue
        tot += 1
        det += bool(c.get("detected"))
        inp += bool(c.get("detected_with_input"))
        verdict = "VIOLATION with input" if c.get("detected_with_input") else ("VIOLATION no-failing-input-found" if c.get("detected") else "MISSED")
        what = chk.get("replay_what")
        try:
            what = json.loads(what)
            what = what[0] if isinstance(what, list) and what else what
        except Exception:
            pass
        rows.append(f"| {d.name} | {cell(m.get('summary'), 260)} | {cell(m.get('needs_to_manifest'), 220)} | {m.get('tier', 'quick')}: {verdict} — {cell(what, 170)} |")
    out = ["# Seeded changes and the verdict of the registered check",
           "",
           "Written by `tools/seedtable.py` from `seeded/*/meta.json` (each written by `tools/seedtest.py`).  `-1`/`-2`: first wave; `-3`/`-4`: second wave",
           "(authors told to avoid the ideas of the first); `-5`..`-20`: waves 3 to 10 (two per wave; later authors were given all earlier ideas of their property).  Every change passes the 227 existing tests and was demonstrated by its author's script.",
           "",
           f"**{tot} changes, {det} reported as VIOLATION, {inp} of them with a concrete failing input.**",
           "",
           "| change | what was changed | needs to manifest | registered check |",
           "|---|---|---|---|"] + rows
    (ROOT / "TABLE.md").write_text("\n".join(out) + "\n")
    print(f"{tot} changes, {det} detected, {inp} with input")


if __name__ == "__main__":
    main()
