#!/venv/bin/python
"""Regenerate MANIFEST.json from the property modules under harness/props."""
import importlib, json, sys, os
from pathlib import Path
V = Path(__file__).resolve().parent.parent
sys.path.insert(0, str(V))
props = [json.loads(l) for l in open(V / "properties.jsonl")]
built = {}
for p in props:
    f = V / "harness" / "props" / f"{p['id'].lower()}.py"
    if f.exists():
        built[p["id"]] = importlib.import_module(f"harness.props.{p['id'].lower()}")
m = {"version": 1,
     "setup_cmd": "cd lean && lake build",
     "hooks": {"guard": "QISKIT_ADDON_CUTTING_VERIF",
               "enable": "no hooks in /repo: the harness observes the real code from outside (in-process calls; monkey-patching happens in the harness process only)",
               "baseline_off_cmd": "cd /repo && /venv/bin/python -m pytest -ra -q -p no:cacheprovider --timeout=900 --continue-on-collection-errors",
               "source_commits": [], "add_only": True},
     "engines": [{"name": "lean-model+tie", "path": "check", "serves_properties": sorted(built),
                  "kind_free_text": "Lean 4 theorems over an executable model (lean/CKT), tied to /repo's working tree by translators that regenerate parts of the model from the Python source on every run (harness/translate -> lean/CKT/Generated, with Lean theorems that the hand-written model functions are the translated code) and by a differential correspondence harness (harness/); axioms audited per run"}],
     "checks": [], "notes": "see DESIGN.md; KNOWN_FINDINGS.json lists recorded / fixed defects", "not_applicable": []}
for p in props:
    pid = p["id"]
    if pid in built:
        mod = built[pid]
        m["checks"].append({
            "property_id": pid, "quick_cmd": f"./check {pid} --tier quick", "thorough_cmd": f"./check {pid} --tier thorough",
            "evidence_file": f"evidence/{pid}.json", "replay_cmd_template": f"./check {pid} --replay {{path}}",
            "engine": "lean-model+tie",
            "level_claimed": {"category": "proof",
                              "text": getattr(mod, "LEVEL_TEXT", f"{len(mod.THEOREMS)} Lean 4 theorems about the executable model of the anchored code; model tied to the code by exact differential comparison on generated inputs"),
                              "design_ref": f"DESIGN.md section 4, {pid}"},
            "level_note": getattr(mod, "LEVEL_NOTE", "Lean kernel + axioms propext/Classical.choice/Quot.sound only; the hand-written model is validated (not verified) against the code by the correspondence run; external libraries modelled: " + "; ".join(getattr(mod, "ASSUMPTIONS", []))),
            "technique": getattr(mod, "TECHNIQUE", "Lean 4 proof over executable model + correspondence check"),
        })
    else:
        m["not_applicable"].append({"property_id": pid, "reason": "check under construction in this build phase (model and theorems planned in DESIGN.md section 4); not claimed until its check exists"})
json.dump(m, open(V / "MANIFEST.json", "w"), indent=1)
# library root: everything under CKT/Model, CKT/Proofs, CKT/Props, CKT/Sem, CKT/Generated
mods = []
for sub in ("Model", "Generated", "Sem", "Proofs", "Props"):
    for f in sorted((V / "lean" / "CKT" / sub).glob("*.lean")):
        mods.append(f"CKT.{sub}.{f.stem}")
(V / "lean" / "CKT.lean").write_text("".join(f"import {x}\n" for x in mods))
print("checks:", [c["property_id"] for c in m["checks"]])
